"""C17 — File discovery returns exactly the wanted files, deterministically."""
from __future__ import annotations

import itertools
import json
import os
import random
import shutil
from pathlib import Path

from common import Check, TRUSTED_BASE_COMMON
import treegen

WORK = Path("/verif/.work/trees")

IGNORE_LINES = ["a.md", "*.txt", "docs/", "sub/", "README.md", "internal/", "deep/", "x/", "d.md", "*.markdown"]
PATH_IGNORE_LINES = ["docs/a.md", "/a.md", "sub/deep/", "src/**/b.md", "!a.md"]

SETTINGS = []
for inc, exc, ext_exc, force, maxsize in itertools.product(
        [None, ["*.md", "*.markdown"], ["*.md", "*.txt"]],
        [None, ["build/"], []],
        [[], ["docs/", "x/"], ["internal/"]],
        [False, True],
        [100, 0, 1_048_576]):
    SETTINGS.append(dict(include=inc, exclude=exc, extend_exclude=ext_exc, force_exclude=force, files_max_size=maxsize))


def make_config(s: dict, respect_gitignore=False):
    from flowmark.file_resolver import FileResolverConfig
    kw = dict(extend_exclude=list(s["extend_exclude"]), force_exclude=s["force_exclude"], files_max_size=s["files_max_size"], respect_gitignore=respect_gitignore)
    if s["include"] is not None:
        kw["include"] = list(s["include"])
    if s["exclude"] is not None:
        kw["exclude"] = list(s["exclude"])
    return FileResolverConfig(**kw)


def spec_of(lines):
    import pathspec
    return pathspec.PathSpec.from_lines("gitignore", lines)


def find_tool_ignore(start: Path):
    """the property's rule: the tool ignore file found by walking up from the traversal root"""
    cur = start.resolve()
    while True:
        cand = cur / ".flowmarkignore"
        if cand.is_file():
            lines = [l for l in cand.read_text().splitlines() if l.strip() and not l.strip().startswith("#")]
            return (cur, spec_of(lines)) if lines else None
        if cur.parent == cur:
            return None
        cur = cur.parent


def reference_walk(root: Path, cfg) -> set[Path]:
    """written from the property text: every regular file below root that is reached through real directories only (no symbolic
    link on the way, the file itself not a link), matches an include pattern, lies in no excluded directory, is matched by no
    tool-ignore rule and is not larger than the limit"""
    inc = spec_of(cfg.effective_include)
    exc = spec_of(cfg.effective_exclude)
    tool = find_tool_ignore(root)
    out = set()

    def excluded_dir(rel: str, name: str) -> bool:
        if exc.match_file(rel + "/") or exc.match_file(name + "/"):
            return True
        if tool is not None:
            tdir, tspec = tool
            if tspec.match_file(name + "/") or tspec.match_file(rel + "/"):
                return True
        return False

    def walk(d: Path, rel: str):
        for e in sorted(os.scandir(d), key=lambda e: e.name):
            r = (rel + "/" + e.name) if rel else e.name
            if e.is_symlink():
                continue                       # nothing is reached through a symbolic link
            if e.is_dir(follow_symlinks=False):
                if not excluded_dir(r, e.name):
                    walk(Path(e.path), r)
            elif e.is_file(follow_symlinks=False):
                if not inc.match_file(e.name):
                    continue
                if cfg.files_max_size and e.stat().st_size > cfg.files_max_size:
                    continue
                if tool is not None and (tool[1].match_file(e.name) or tool[1].match_file(r)):
                    continue
                out.add(Path(e.path).resolve())
    walk(root, "")
    return out


def reference_resolve(args: list[str], cfg, cwd: Path) -> list[Path] | str:
    """whole-argument-list reference: explicit files bypass exclusion and ignore rules (unless force_exclude) but not the size
    limit; directories and globs go through the reference walk / the same filters"""
    import glob as globmod
    exc = spec_of(cfg.effective_exclude)
    res = set()
    for a in args:
        p = (cwd / a) if not os.path.isabs(a) else Path(a)
        if p.is_file():
            if cfg.files_max_size and p.stat().st_size > cfg.files_max_size:
                continue
            if cfg.force_exclude:
                rel_parts = Path(a).parts
                if exc.match_file(rel_parts[-1]) or any(exc.match_file(part + "/") for part in rel_parts[:-1]):
                    continue
            res.add(p.resolve())
        elif p.is_dir():
            res |= reference_walk(p, cfg)
        elif any(ch in a for ch in "*?["):
            # glob expansion, then the filters of the traversal: a match must be a wanted file of the directory the glob starts in
            parts = Path(a).parts
            k = next(i for i, part in enumerate(parts) if any(ch in part for ch in "*?["))
            base = (cwd / Path(*parts[:k])) if k else cwd
            if base.is_dir():
                rx = glob_regex("/".join(parts[k:]))
                base_res = base.resolve()
                for f in reference_walk(base, cfg):
                    try:
                        rel = f.relative_to(base_res).as_posix()
                    except ValueError:
                        continue
                    if rx.fullmatch(rel):
                        res.add(f)
        else:
            return "FileNotFoundError"
    return sorted(res)


def glob_regex(pattern: str):
    """pathlib-style glob over '/'-separated relative paths: ** = any number of directories, * and ? do not cross '/', hidden names match"""
    import re
    out = []
    segs = pattern.split("/")
    for i, seg in enumerate(segs):
        last = i == len(segs) - 1
        if seg == "**":
            out.append("(?:[^/]+/)*" if not last else "(?:[^/]+/)*[^/]*")
            continue
        r = ""
        j = 0
        while j < len(seg):
            ch = seg[j]
            if ch == "*":
                r += "[^/]*"
            elif ch == "?":
                r += "[^/]"
            elif ch == "[":
                k = seg.find("]", j + 2)
                if k < 0:
                    r += re.escape(ch)
                else:
                    body = seg[j + 1:k]
                    r += "[" + ("^" + body[1:] if body.startswith("!") else body) + "]"
                    j = k
            else:
                r += re.escape(ch)
            j += 1
        out.append(r + ("" if last else "/"))
    return re.compile("".join(out))


def run_impl(args, cfg, cwd: Path):
    from flowmark.file_resolver import FileResolver
    old = os.getcwd()
    os.chdir(cwd)
    try:
        return FileResolver(cfg).resolve(list(args))
    except FileNotFoundError:
        return "FileNotFoundError"
    finally:
        os.chdir(old)


def shuffled_walk(rng):
    real = os.walk

    def walk(top, *a, **kw):
        for dirpath, dirnames, filenames in real(top, *a, **kw):
            rng.shuffle(dirnames)
            rng.shuffle(filenames)
            yield dirpath, dirnames, filenames
    return walk


def enc_node(tree: dict) -> str:
    from common import enc_str
    out = [str(len(tree))]
    for name, spec in tree.items():
        out.append(enc_str(name))
        if "d" in spec:
            out.append("1 " + enc_node(spec["d"]))
        elif "f" in spec:
            out.append(f"0 {spec['f']}")
        elif "text" in spec:
            out.append(f"0 {len(spec['text'].encode())}")
        else:
            out.append("2")
    return " ".join(out)


def model_walk_request(tree: dict, cfg, root: Path, respect: bool) -> str:
    """the matcher's answers for every string the model can ask about (names, names + '/', relative paths, relative paths + '/')"""
    from common import enc_str, enc_bool
    inc = spec_of(cfg.effective_include)
    exc = spec_of(cfg.effective_exclude)
    tool = find_tool_ignore(root)
    strings = set()
    gis = []
    for comps, spec in treegen.tree_paths(tree):
        name, rel = comps[-1], "/".join(comps)
        strings |= {name, name + "/", rel, rel + "/"}
    for comps, spec in [((), {"d": tree})] + list(treegen.tree_paths(tree)):
        if "d" in spec and ".gitignore" in spec["d"] and "text" in spec["d"][".gitignore"]:
            lines = [l for l in spec["d"][".gitignore"]["text"].splitlines() if l.strip() and not l.strip().startswith("#")]
            gis.append((comps, spec_of(lines) if lines else None))
    # a .gitignore spec is asked about paths relative to its own directory
    for comps, spec in list(treegen.tree_paths(tree)):
        for k in range(1, len(comps)):
            sub = "/".join(comps[k:])
            strings |= {sub, sub + "/"}
    strings = sorted(strings)

    def table_opt(sp):
        def val(s):
            inc_ = sp.check_file(s).include
            return "0" if inc_ is None else ("2" if inc_ else "1")
        return f"{len(strings)} " + " ".join(enc_str(s) + " " + val(s) for s in strings)

    def table(sp):
        return f"{len(strings)} " + " ".join(enc_str(s) + " " + enc_bool(bool(sp.match_file(s))) for s in strings)
    req = ["resolver_walk", enc_bool(respect), str(cfg.files_max_size), table(inc), table(exc)]
    req.append("0" if tool is None else "1 " + table(tool[1]))
    req.append(str(len(gis)))
    for comps, sp in gis:
        req.append(f"{len(comps)} " + " ".join(enc_str(c) for c in comps))
        req.append("0" if sp is None else "1 " + table_opt(sp))
    req.append("1 " + enc_node(tree))
    return " ".join(req)


def classify(kf, rec):
    c = rec["case"]
    cl = kf.get("classifier")
    what = rec["what"]
    extra = [Path(x) for x in c.get("extra", [])]
    missing = [Path(x) for x in c.get("missing", [])]
    if cl == "symlinked-file-listed":
        return bool(extra) and not missing and all("/OUT/" in str(x) or str(x) in c.get("link_targets", []) for x in extra)
    if cl == "glob-bypasses-filters":
        return bool(extra) and not missing and any(ch in a for a in c.get("args", []) for ch in "*?[")
    if cl == "path-patterns-in-tool-ignore":
        return bool(c.get("path_ignore")) and bool(extra) and not missing
    return False


def diff_lists(impl, ref):
    if isinstance(impl, str) or isinstance(ref, str):
        return (None, None) if impl == ref else ([], [])
    si, sr = set(impl), set(ref)
    return sorted(si - sr), sorted(sr - si)


def run(chk: Check) -> None:
    tier = chk.tier
    chk.cov["trusted_base"] = TRUSTED_BASE_COMMON + [
        "pathspec (the gitignore-syntax matcher), glob, os.walk and the file system are oracles of the model and are used, not modelled",
        "the reference walk in harness/c17.py is written from the property text and uses pathspec with full relative paths"]
    chk.cov["rule"] = ("random directory trees (<= 4 levels; names incl. spaces / non-ASCII / hidden; sizes around the limit; default-excluded and user-excluded "
                       "directories; symlinks to files and directories inside and outside; dangling links; existing names holding glob characters; .flowmarkignore at "
                       "several levels) x include / exclude / extend-exclude / force-exclude / max-size settings (the complete product of 162 on 12 trees and 24 sampled "
                       "ones on 88 more trees in thorough, 12 sampled per tree in quick) x argument lists (directory, sub-directory, "
                       "explicit files, globs, mixed, permuted, duplicated): result vs reference walk; shape (absolute, sorted, duplicate-free); invariance under "
                       "argument permutation and under shuffled directory listing order; non-trivial = tree has >= 3 candidate files; distinct by (tree, settings, args)")
    if not chk.phase_build("Props/C17.v"):
        return
    rng = chk.rng
    ntrees = 40 if tier == "quick" else 100
    nb = 0
    ncases = 0
    WORK.mkdir(parents=True, exist_ok=True)
    base = WORK / f"c17-{os.getpid()}"
    try:
        for ti in range(ntrees):
            path_ignore = rng.random() < 0.2
            tree = treegen.gen_tree(rng, ignore_lines=IGNORE_LINES + (PATH_IGNORE_LINES if path_ignore else []))
            root = treegen.materialize(base, tree, shuffle=random.Random(rng.randrange(1 << 30)))
            entries = list(treegen.tree_paths(tree))
            files = ["/".join(c) for c, s in entries if "f" in s]
            dirs = ["/".join(c) for c, s in entries if "d" in s]
            link_targets = [str((base / s["lf"]).resolve()) for c, s in entries if "lf" in s]
            arglists = [["."], ["ROOTABS"]]
            if dirs:
                d = rng.choice(dirs)
                arglists.append([d])
                arglists.append([".", d])
            if files:
                fs = rng.sample(files, min(len(files), 3))
                arglists.append(fs)
                arglists.append([".", fs[0]] + ([d] if dirs else []))
            arglists += [["*.md"], ["**/*.md"], ["*/*.md", "."], ["docs/*.md"] if "docs" in tree else ["*.markdown"]]
            # thorough: the complete settings product on the first 12 trees, a sample of 24 settings on the others (about 40 000 cases)
            settings = (SETTINGS if ti < 12 else rng.sample(SETTINGS, 24)) if tier == "thorough" else rng.sample(SETTINGS, 12)
            for s in settings:
                cfg = make_config(s)
                for args in (arglists if tier == "thorough" else rng.sample(arglists, min(4, len(arglists)))):
                    args = [str(root) if a == "ROOTABS" else a for a in args]
                    ncases += 1
                    chk.count()
                    if len(files) >= 3:
                        chk.nontrivial((json.dumps(tree, sort_keys=True), json.dumps(s, sort_keys=True), tuple(args)))
                    impl = run_impl(args, cfg, root)
                    ref = reference_resolve(args, cfg, root)
                    case = {"tree": tree, "settings": s, "args": args, "link_targets": link_targets, "path_ignore": path_ignore}
                    problems = []
                    if not isinstance(impl, str):
                        if impl != sorted(impl):
                            problems.append("result is not sorted")
                        if len(set(impl)) != len(impl):
                            problems.append("result has duplicates")
                        if any(not p.is_absolute() for p in impl):
                            problems.append("result has a relative path")
                    extra, missing = diff_lists(impl, ref)
                    if extra is None:
                        pass
                    elif extra or missing or isinstance(impl, str) != isinstance(ref, str):
                        problems.append(f"result differs from the reference walk: extra {[str(x) for x in extra][:4]} missing {[str(x) for x in missing][:4]}")
                        case["extra"] = [str(x) for x in extra]
                        case["missing"] = [str(x) for x in missing]
                    # order independence: permuted arguments, shuffled listing order
                    if len(args) > 1 and not isinstance(impl, str):
                        perm = list(args)
                        rng.shuffle(perm)
                        if run_impl(perm + [args[0]], cfg, root) != impl:
                            problems.append(f"result depends on argument order / repetition: {perm}")
                    real_walk = os.walk
                    os.walk = shuffled_walk(rng)
                    try:
                        if run_impl(args, cfg, root) != impl:
                            problems.append("result depends on the order in which the file system lists entries")
                    finally:
                        os.walk = real_walk
                    for why in problems:
                        nb += 1
                        chk.fail("property", dict(case), why, classify)
                    chk.hist("arg_kind", "glob" if any(ch in a for a in args for ch in "*?[") else ("dir" if any((root / a).is_dir() for a in args) else "files"))
    finally:
        shutil.rmtree(base, ignore_errors=True)
    chk.port_stat("spec: FileResolver.resolve vs reference walk, shape, order independence", ncases, nb)
    # ---- correspondence: extracted Model/Resolver.walk (oracle tables from pathspec) vs FileResolver on real trees ----
    from common import model_batch, Toks
    reqs, expect = [], []
    base = WORK / f"c17m-{os.getpid()}"
    try:
        for ti in range(25 if tier == "quick" else 200):
            tree = treegen.gen_tree(rng, ignore_lines=IGNORE_LINES + PATH_IGNORE_LINES, gitignore_lines=["*.txt", "b.md", "sub/", "deep/", "/a.md", "docs/a.md", "src/**/b.md", "!README.md", "!b.md", "*.md"])
            root = treegen.materialize(base, tree)
            for s in rng.sample(SETTINGS, 4):
                for respect in (False, True):
                    cfg = make_config(s, respect_gitignore=respect)
                    reqs.append(model_walk_request(tree, cfg, root, respect))
                    impl = run_impl(["."], cfg, root)
                    expect.append(sorted(str(p.relative_to(root.resolve())) for p in impl))
        ans = model_batch(reqs, shards=1)
    finally:
        shutil.rmtree(base, ignore_errors=True)
    nd = 0
    for a, e in zip(ans, expect):
        if a.startswith(("ERR", "EXC")):
            got = a
        else:
            tk = Toks(a)
            got = sorted("/".join(comps) for comps in tk.list(tk.strs))
        if got != e:
            nd += 1
            if nd <= 3:
                chk.notes.append(f"resolver walk differs: model={got} impl={e}")
    chk.count(len(reqs))
    chk.port_stat("walk (Model/Resolver.v, pathspec answers supplied) vs FileResolver.resolve(['.'])", len(reqs), nd)
    if nd:
        chk.broken.append(f"correspondence resolver walk: {nd}/{len(reqs)} cases differ")


def replay(path: str) -> int:
    rec = json.loads(open(path).read())
    c = rec.get("case")
    print("what:", rec.get("what"))
    if not c:
        print("broken:", rec.get("broken"))
        return 1
    base = WORK / f"replay-{os.getpid()}"
    try:
        root = treegen.materialize(base, c["tree"])
        cfg = make_config(c["settings"], respect_gitignore=c.get("respect_gitignore", False))
        print("tree:", json.dumps(c["tree"])[:1500])
        print("settings:", c["settings"], "args:", c["args"])
        impl = run_impl(c["args"], cfg, root)
        ref = reference_resolve(c["args"], cfg, root)
        print("implementation:", [str(p) for p in impl] if not isinstance(impl, str) else impl)
        print("reference     :", [str(p) for p in ref] if not isinstance(ref, str) else ref)
    finally:
        shutil.rmtree(base, ignore_errors=True)
    return 1
