import json,sys,glob
for f in sorted(glob.glob(f"/verif/replays/{sys.argv[1]}-*.json")):
    r=json.load(open(f))
    c=r.get("case") or {}
    o=c.get("opts",{})
    print(f[-17:-5], "|", (r.get("what") or str(r.get("broken")))[:230], "| w=%s sem=%s len=%d"%(o.get("width"), o.get("semantic"), len(c.get("doc",""))), "MODELDIFF" if c.get("_diff") else "")
