"""C08 — Smart quotes only swap individual quote characters, and only in prose."""
from __future__ import annotations

import itertools
import json

from common import Check, TRUSTED_BASE_COMMON, enc_str
from ports import run_port
import rx
import wports
import gen_words as G
import mdast

ALPHA = ["'", '"', "a", "s", " ", ".", "\n", "—", "{", "%", "}"]
CURLY = {"'": "‘’", '"': "“”"}


REPRO = {
    "D-82": "See [the \"big\" page] for more.\n\n[the \"big\" page]: http://x.com\n",
}


def classify(kf, rec):
    c = rec["case"]
    if kf.get("classifier") == "shortcut-reference-label-with-quotes":
        # a shortcut / collapsed reference whose label holds a convertible quote: with the option on the link text no longer
        # equals the label and the full form [text][label] is written
        import re
        doc = c.get("doc", "")
        labels = re.findall(r"^ {0,3}\[([^\]^][^\]]*)\]:", doc, flags=re.M)
        return "length" in rec["what"] and any(("'" in l or '"' in l) and ("[" + l + "]") in doc.replace("[" + l + "]:", "") for l in labels)
    return False


# template tags and HTML comments as the property text names them; deliberately NOT the implementation's TEMPLATE_TAG_PATTERN, so that a
# change to that pattern cannot blind the oracle
import re as _re
SPEC_TAG = _re.compile(r"\{%.*?%\}|\{#.*?#\}|\{\{.*?\}\}|<!--.*?-->", _re.S)


def tags_fixed(a: str, b: str) -> str | None:
    """a, b of equal length: every tag of a is found unchanged at the same position in b"""
    for m in SPEC_TAG.finditer(a):
        if b[m.start():m.end()] != m.group(0):
            return f"template tag {m.group(0)!r} changed to {b[m.start():m.end()]!r}"
    return None


def pointwise_ok(a: str, b: str) -> str | None:
    if len(a) != len(b):
        return f"length {len(a)} -> {len(b)}"
    for i, (x, y) in enumerate(zip(a, b)):
        if x != y and not (x in CURLY and y in CURLY[x]):
            return f"position {i}: {x!r} -> {y!r}"
    return None


def gen_quote_text(rng) -> str:
    words = []
    for _ in range(rng.randint(0, 14)):
        r = rng.random()
        if r < 0.3:
            words.append(rng.choice(G.PLAIN))
        elif r < 0.6:
            words.append(rng.choice(["\"hi\"", "'x'", "it's", "James'", "\"a", "b\"", "'tis", "x=\"y\"", "(\"p\")", "—\"d\"", "\"q\",", "'s'.", "don't", "\"", "'", "''", "\"\"", "a'b'c", "“c”", "‘d’", "\\\"e\\\""]))
        elif r < 0.75:
            words.append(rng.choice(G.TAGS + ["{% t a=\"b\" c='d' %}", "<!-- it's \"x\" -->", "{{ v|default('x') }}", "{# don't #}",
                                              # tags whose body holds the closing delimiter's first character
                                              "{% if i % 2 == \"a b\" %}", "{% set w = \"50%\" %}", "{% x % 'b c' %}", "{{ a } \"b c\" }}", "{# 50% 'off' # now #}", "<!-- a - \"b c\" -- d -->"]))
        elif r < 0.85:
            words.append(rng.choice(G.ATOMS + ["`it's`", "[l's](u'v \"t\")"]))
        elif r < 0.92:
            # sentence ends next to quotes (semantic breaks must not depend on the quote style), escapes at a line start
            words.append(rng.choice(["he said \"word\". Then it", "it was 'so'. And then", "\"The end.\" Next one", "called \"it\"! Now go", "(\"why\"?) Because so",
                                     "the room\n12\\. Bring it", "see\n1\\. 'first' thing", "go\n\\- \"dash\" word"]))
        else:
            words.append(rng.choice(G.SENT_WORDS + G.HAZARD_WORDS))
    seps = [" ", " ", " ", "\n", "  ", "\n\n", "", "\t"]
    return "".join(w + rng.choice(seps) for w in words)


def gen_doc(rng) -> str:
    blocks = []
    for _ in range(rng.randint(1, 5)):
        r = rng.random()
        t = gen_quote_text(rng).strip() or "x"
        t1 = t.replace("\n\n", "\n")
        if r < 0.4:
            blocks.append(t1)
        elif r < 0.5:
            blocks.append("# " + t1.replace("\n", " "))
        elif r < 0.6:
            blocks.append("- " + t1.replace("\n", "\n  "))
        elif r < 0.7:
            blocks.append("> " + t1.replace("\n", "\n> "))
        elif r < 0.8:
            blocks.append("```\n" + t1 + "\n```")
        elif r < 0.86:
            blocks.append("| a | b |\n|---|---|\n| " + t1.replace("\n", " ").replace("|", "/") + " | \"q\" |")
        elif r < 0.9:
            # several paragraphs in one container, the quotes balance only across them: pairing must stay inside each paragraph
            a, b = rng.choice([("she said \"open and", "then close\" it"), ("an 'opening here", "and a closing' there"), ("\"one", "two\""), ("x \"a b", "c d\" y")])
            k = rng.choice(["quote", "item", "items", "quote-list", "footnote"])
            if k == "quote":
                blocks.append("> " + a + "\n>\n> " + b)
            elif k == "item":
                blocks.append("- " + a + "\n\n  " + b)
            elif k == "items":
                blocks.append("- " + a + "\n- " + b)
            elif k == "quote-list":
                blocks.append("> - " + a + "\n> - " + b)
            else:
                blocks.append("note[^q]\n\n[^q]: " + a + "\n\n    " + b)
        else:
            blocks.append("*" + t1.replace("\n", " ").replace("*", "") + "* and `code 'q' \"r\"` and [l \"x\"](http://u/'a' \"ti'tle\")")
    return "\n\n".join(blocks) + "\n"


def run(chk: Check) -> None:
    from flowmark.typography.smartquotes import smart_quotes
    from flowmark import reformat_text
    tier = chk.tier
    chk.cov["trusted_base"] = TRUSTED_BASE_COMMON + ["regex engine agreement with CPython re on QUOTE_PATTERN / TEMPLATE_TAG_PATTERN and the inline patterns: tested, not proved"]
    chk.cov["rule"] = ("smart_quotes: every string of length <= 5 (quick) / 6 (thorough) over {',\",a,s,space,.,newline,em-dash,{,%,}} plus random "
                       "quote-heavy texts with tags/code/links; documents: generated blocks x {smartquotes on, off} x option sets; "
                       "non-trivial = the output differs from the input; distinct by input")
    if not chk.phase_build("Props/C08.v"):
        return
    rng = chk.rng
    rx.validate(chk, ["re_quote", "re_template_tag", "re_paragraph_break", "re_sq_split", "re_sq_contraction", "re_sq_possessive"], tier, per_pattern=800 if tier == "quick" else None)
    maxlen = 5 if tier == "quick" else 6
    cases = [{"t": "".join(t)} for k in range(maxlen + 1) for t in itertools.product(ALPHA, repeat=k)]
    if tier == "quick":
        cases = [c for i, c in enumerate(cases) if len(c["t"]) <= 4 or i % 7 == 0]
    cases += [{"t": gen_quote_text(rng)} for _ in range(3000 if tier == "quick" else 40000)]
    outs = {}

    def impl(c):
        o = smart_quotes(c["t"])
        outs[id(c)] = o
        return enc_str(o)

    d = run_port(chk, "smart_quotes", cases, lambda c: "smart_quotes " + enc_str(c["t"]), impl)
    wports.note_diffs(chk, "smart_quotes", d, ["t"])
    nb = 0
    import re
    from flowmark.linewrapping.tag_handling import TEMPLATE_TAG_PATTERN
    for c in cases:
        o = outs.get(id(c))
        if o is None:
            continue
        if o != c["t"]:
            chk.nontrivial(c["t"])
        why = pointwise_ok(c["t"], o)
        if why is None:
            why = tags_fixed(c["t"], o)
        if why:
            nb += 1
            chk.fail("property", {"text": c["t"], "out": o}, "smart_quotes is not a pointwise quote-only rewrite: " + why, classify)
    chk.port_stat("spec: pointwise / tags fixed on smart_quotes()", len(cases), nb)
    # ---- documents: option on vs off ----
    nd = 300 if tier == "quick" else 5000
    nbd = 0
    for i in range(nd):
        doc = gen_doc(rng)
        o = dict(width=rng.choice([0, 20, 40, 88]), semantic=rng.random() < 0.5, cleanups=rng.random() < 0.5, ellipses=rng.random() < 0.3)
        off = reformat_text(doc, smartquotes=False, **o)
        on = reformat_text(doc, smartquotes=True, **o)
        chk.count()
        if on != off:
            chk.nontrivial(doc)
        why = pointwise_ok(off, on)
        if why is None:
            why = tags_fixed(off, on)
        if why is None:
            # protected content: parse both outputs; everything that is not prose text must be identical
            try:
                ta, tb = mdast.doc_tree(off), mdast.doc_tree(on)
                why = mdast.shape_diff(ta, tb, pointwise_ok)
            except Exception as e:
                why = f"re-parse failed: {e}"
        if why:
            import c01
            if not c01.structure_preserved(doc, o["width"], o["semantic"]):
                chk.hist("skipped", "formatting without the option already changes the structure (C01 finding)")
                continue
            nbd += 1
            chk.fail("property", {"doc": doc, "opts": o, "off": off, "on": on}, "smartquotes on vs off: " + why, classify)
        if i < 2:
            chk.sample({"doc": doc[:200], "opts": o, "on": on[:200]})
    # ---- the pipeline model (per-paragraph rewrite scope, Props/C08.v theorem 6) against the implementation with the option on ----
    import docports
    pc = [{"doc": gen_doc(rng), "opts": dict(width=rng.choice([0, 30, 88]), semantic=rng.random() < 0.5, cleanups=False, smartquotes=True,
                                               ellipses=rng.random() < 0.3, list_spacing="preserve")} for _ in range(120 if tier == "quick" else 1500)]
    docports.run_fill_port(chk, pc)
    for fid, doc in REPRO.items():
        o = dict(width=88, semantic=False, cleanups=False, ellipses=False)
        off, on = reformat_text(doc, smartquotes=False, **o), reformat_text(doc, smartquotes=True, **o)
        why = pointwise_ok(off, on)
        chk.count()
        if why:
            chk.fail("property", {"doc": doc, "opts": o, "off": off, "on": on, "repro": fid}, "smartquotes on vs off: " + why, classify)
    chk.port_stat("spec: reformat_text(smartquotes on) vs off", nd, nbd)


def replay(path: str) -> int:
    from flowmark.typography.smartquotes import smart_quotes
    from flowmark import reformat_text
    rec = json.loads(open(path).read())
    c = rec.get("case")
    print("what:", rec.get("what"))
    if not c:
        print("broken:", rec.get("broken"))
        return 1
    if "text" in c:
        print(repr(c["text"]), "->", repr(smart_quotes(c["text"])))
    else:
        print("off:", repr(reformat_text(c["doc"], smartquotes=False, **c["opts"])))
        print("on :", repr(reformat_text(c["doc"], smartquotes=True, **c["opts"])))
    return 1
