(* Hand-written driver around the extracted model (Model). One request per input line:
     <port> <int tokens ...>
   Strings are "<n> c1 .. cn" (code points), lists "<k> item1 .. itemk", ints decimal,
   bools 0/1.  One answer line per request, same token syntax.  Errors -> "ERR msg". *)
type rd = { toks : string array; mutable pos : int }
exception Bad of string
let ports : (string * (rd -> unit)) list ref = ref []
open Model

let rec pos_of_int n =
  if n <= 1 then XH
  else if n land 1 = 0 then XO (pos_of_int (n lsr 1))
  else XI (pos_of_int (n lsr 1))
let n_of_int i = if i <= 0 then N0 else Npos (pos_of_int i)
let z_of_int i = if i = 0 then Z0 else if i > 0 then Zpos (pos_of_int i) else Zneg (pos_of_int (-i))
let rec int_of_pos = function XH -> 1 | XO p -> 2 * int_of_pos p | XI p -> 2 * int_of_pos p + 1
let int_of_n = function N0 -> 0 | Npos p -> int_of_pos p
let int_of_z = function Z0 -> 0 | Zpos p -> int_of_pos p | Zneg p -> - (int_of_pos p)
let rec nat_of_int i = if i <= 0 then O else S (nat_of_int (i - 1))
let rec int_of_nat = function O -> 0 | S n -> 1 + int_of_nat n

(* ---- token stream ---- *)
let next (r : rd) =
  if r.pos >= Array.length r.toks then raise (Bad "eof");
  let t = r.toks.(r.pos) in r.pos <- r.pos + 1; t
let rd_int r = try int_of_string (next r) with Failure _ -> raise (Bad "int")
let rd_bool r = rd_int r <> 0
let rd_z r = z_of_int (rd_int r)
let rd_n r = n_of_int (rd_int r)
let rd_list f r = let k = rd_int r in List.init k (fun _ -> f r)
let rd_str r = rd_list rd_n r
let rd_strs r = rd_list rd_str r
let rd_opt f r = if rd_bool r then Some (f r) else None

let b = Buffer.create 65536
let wr_int i = Buffer.add_string b (string_of_int i); Buffer.add_char b ' '
let wr_bool x = wr_int (if x then 1 else 0)
let wr_n x = wr_int (int_of_n x)
let wr_z x = wr_int (int_of_z x)
let wr_list f l = wr_int (List.length l); List.iter f l
let wr_str s = wr_list wr_n s
let wr_strs l = wr_list wr_str l
let wr_opt f = function None -> wr_int 0 | Some x -> wr_int 1; f x
let wr_pair f g (x, y) = f x; g y

let exc_name = function
  | TypeError -> "TypeError" | IndexError -> "IndexError" | AssertionError -> "AssertionError"
  | ValueError -> "ValueError" | OutOfFuel -> "OutOfFuel"
let wr_m f = function
  | Inl x -> f x
  | Inr e -> Buffer.clear b; Buffer.add_string b ("EXC " ^ exc_name e)

let port name f = ports := (name, f) :: !ports

let () =
  port "split_ws" (fun r -> wr_strs (split_ws (rd_str r)));
  port "strip" (fun r -> wr_str (strip (rd_str r)));
  port "collapse_ws" (fun r -> wr_str (collapse_ws (rd_str r)));
  port "splitlines" (fun r -> wr_strs (splitlines (rd_str r)));
  port "escape_word" (fun r -> wr_str (escape_word (rd_str r)));
  port "opens_block_word" (fun r -> wr_bool (opens_block_word (rd_str r)));
  port "read_code_span" (fun r -> wr_opt (wr_pair wr_str wr_str) (read_code_span (rd_str r)));
  port "read_destination" (fun r -> wr_opt (wr_pair wr_str wr_str) (read_destination (rd_str r)));
  port "read_title" (fun r -> wr_opt (wr_pair wr_str wr_str) (read_title (rd_str r)));
  port "read_fenced" (fun r ->
    wr_opt (fun (f, rest) -> wr_n f.f_char; wr_int (int_of_nat f.f_len); wr_str f.f_info; wr_strs f.f_body; wr_strs rest)
      (read_fenced (rd_strs r)));
  port "render_code_span" (fun r -> wr_str (render_code_span (rd_str r)));
  port "link_destination" (fun r -> wr_str (link_destination (rd_str r)));
  port "normalize_title_quotes" (fun r -> wr_str (normalize_title_quotes (rd_str r)));
  port "strip_backslash" (fun r -> wr_str (strip_backslash (rd_str r)));
  port "read_atx" (fun r -> wr_opt (fun (n, c) -> wr_int (int_of_nat n); wr_str c) (read_atx (rd_str r)));
  port "escape_closing_hashes" (fun r -> wr_str (escape_closing_hashes (rd_str r)));
  port "read_row" (fun r -> wr_opt wr_strs (read_row (rd_str r)));
  port "read_ol_marker" (fun r -> wr_opt (fun (n, w) -> wr_n n; wr_int (int_of_nat w)) (read_ol_marker (rd_str r)));
  port "escape_backslashes" (fun r -> wr_str (escape_backslashes (rd_str r)));
  port "escape_backslashes_inner" (fun r -> wr_str (escape_backslashes_inner (rd_str r)));
  port "wrap_words" (fun r ->
    let md = rd_bool r in let w = rd_z r in let c0 = rd_z r in let c1 = rd_z r in
    let ws = rd_strs r in
    wr_list wr_strs (wrap_words escape_rx ws w c0 c1 md));
  port "wrap_ok" (fun r ->
    let md = rd_bool r in let w = rd_z r in let c0 = rd_z r in let c1 = rd_z r in
    let ws = rd_strs r in let ls = rd_list rd_strs r in
    wr_bool (wrap_ok escape_rx ws w c0 c1 md ls));
  port "wrap_ok_strict" (fun r ->
    let md = rd_bool r in let w = rd_z r in let c0 = rd_z r in let c1 = rd_z r in
    let ws = rd_strs r in let ls = rd_list rd_strs r in
    wr_bool (wrap_ok_strict escape_rx ws w c0 c1 md ls));
  port "rx_finditer" (fun r ->
    let i = nat_of_int (rd_int r) in let s = rd_str r in
    wr_opt (wr_list (fun ((a, e), gs) ->
      wr_int (int_of_nat a); wr_int (int_of_nat e);
      wr_list (wr_opt (fun (st, t) -> wr_int (int_of_nat st); wr_str t)) gs)) (rx_finditer i s));
  (* wrap_paragraph_lines with str.split as the splitter *)
  port "wpl_simple" (fun r ->
    let w = rd_z r in let c0 = rd_z r in let c1 = rd_z r in
    let rw = rd_bool r in let dw = rd_bool r in let md = rd_bool r in
    let t = rd_str r in
    wr_strs (wrap_paragraph_lines escape_rx split_ws t w c0 c1 rw dw md))

let wrap_mode_of_int = function
  | 0 -> WNone | 1 -> WWrap | 2 -> WWrapFull | 3 -> WWrapIndent | 4 -> WIndentOnly
  | 5 -> WHangingIndent | _ -> WMarkdownItem

let () =
  port "escape_rx" (fun r -> wr_str (escape_rx (rd_str r)));
  port "word_splitter" (fun r -> wr_m wr_strs (html_md_word_splitter (rd_str r)));
  port "normalize_adjacent_tags" (fun r -> wr_m wr_str (normalize_adjacent_tags (rd_str r)));
  port "denormalize_adjacent_tags" (fun r -> wr_m wr_str (denormalize_adjacent_tags (rd_str r)));
  port "preprocess_tag_block_spacing" (fun r -> wr_str (preprocess_tag_block_spacing (rd_str r)));
  port "fix_closing_tag_spacing" (fun r -> wr_str (fix_closing_tag_spacing (rd_str r)));
  port "fix_multiline_opening" (fun r -> wr_str (fix_multiline_opening_tag_with_closing (rd_str r)));
  port "line_preds" (fun r -> let s = rd_str r in
    wr_bool (line_is_block_content s); wr_bool (line_is_list_item s); wr_bool (line_is_table_row s);
    wr_bool (is_tag_only_line s));
  port "wpl_md" (fun r ->
    let w = rd_z r in let c0 = rd_z r in let c1 = rd_z r in
    let rw = rd_bool r in let dw = rd_bool r in let md = rd_bool r in
    let t = rd_str r in
    wr_m wr_strs (wrap_paragraph_lines_md t w c0 c1 rw dw md));
  port "wrap_paragraph" (fun r ->
    let w = rd_z r in let ic = rd_z r in
    let rw = rd_bool r in let dw = rd_bool r in let md = rd_bool r in
    let i1 = rd_str r in let i2 = rd_str r in let t = rd_str r in
    wr_m wr_str (wrap_paragraph t w i1 i2 ic rw dw md));
  port "line_wrap_to_width" (fun r ->
    let w = rd_z r in let md = rd_bool r in
    let i1 = rd_str r in let i2 = rd_str r in let t = rd_str r in
    wr_m wr_str (line_wrap_to_width w md t i1 i2));
  port "line_wrap_by_sentence" (fun r ->
    let w = rd_z r in let ml = rd_z r in let md = rd_bool r in
    let i1 = rd_str r in let i2 = rd_str r in let t = rd_str r in
    wr_m wr_str (line_wrap_by_sentence w ml md t i1 i2));
  port "split_sentences" (fun r ->
    let ml = rd_z r in let t = rd_str r in
    wr_strs (split_sentences_regex t ml));
  port "split_hard_breaks" (fun r -> wr_strs (split_markdown_hard_breaks (rd_str r)));
  port "fill_text" (fun r ->
    let mode = wrap_mode_of_int (rd_int r) in let w = rd_z r in let ic = rd_z r in
    let extra = rd_str r in let empty = rd_str r in let t = rd_str r in
    wr_m wr_str (fill_text t mode w extra empty ic));
  port "split_frontmatter" (fun r -> let (a, b) = split_frontmatter (rd_str r) in wr_str a; wr_str b);
  (* fs_prog: k jobs, each: dst tmp backup chunks  -> list of ops: kind path [path|chunk] *)
  port "fs_prog" (fun r ->
    let js = rd_list (fun r -> let d = rd_str r in let t = rd_str r in let b = rd_bool r in
                               let cs = rd_strs r in { j_dst = d; j_tmp = t; j_backup = b; j_chunks = cs }) r in
    wr_list (function
      | Create p -> wr_int 0; wr_str p
      | Append (p, c) -> wr_int 1; wr_str p; wr_str c
      | BackupMove (a, b) -> wr_int 2; wr_str a; wr_str b
      | Rename (a, b) -> wr_int 3; wr_str a; wr_str b) (run_prog js));
  port "target_okb" (fun r ->
    let backup = rd_bool r in let nw = rd_str r in
    let old = rd_opt rd_str r in let cd = rd_opt rd_str r in let co = rd_opt rd_str r in
    wr_bool (target_okb backup nw old cd co))

(* Coq strings (ascii = 8 booleans) <-> OCaml strings *)
let ascii_of_char c =
  let n = Char.code c in
  let b i = (n lsr i) land 1 = 1 in
  Ascii (b 0, b 1, b 2, b 3, b 4, b 5, b 6, b 7)
let char_of_ascii (Ascii (b0, b1, b2, b3, b4, b5, b6, b7)) =
  let v b i = if b then 1 lsl i else 0 in
  Char.chr (v b0 0 + v b1 1 + v b2 2 + v b3 3 + v b4 4 + v b5 5 + v b6 6 + v b7 7)
let rec cstring_of s i = if i >= String.length s then EmptyString else String (ascii_of_char s.[i], cstring_of s (i + 1))
let cstr s = cstring_of s 0
let rec ostring_of = function EmptyString -> "" | String (a, r) -> String.make 1 (char_of_ascii a) ^ ostring_of r
(* names travel as code-point strings in the token protocol *)
let rd_name r = cstr (String.concat "" (List.map (fun n -> String.make 1 (Char.chr (int_of_n n))) (rd_str r)))
let wr_name s = wr_str (List.map (fun c -> n_of_int (Char.code c)) (List.of_seq (String.to_seq (ostring_of s))))

let rd_fo r =
  let w = rd_z r in let pl = rd_bool r in let se = rd_bool r in let cl = rd_bool r in
  let sq = rd_bool r in let el = rd_bool r in
  let ls = (match rd_int r with 0 -> LPreserve | 1 -> LLoose | _ -> LTight) in
  let ip = rd_bool r in let nb = rd_bool r in
  { f_width = w; f_plaintext = pl; f_semantic = se; f_cleanups = cl; f_smartquotes = sq;
    f_ellipses = el; f_list_spacing = ls; f_inplace = ip; f_nobackup = nb }

let rec assoc_str k = function
  | [] -> None
  | (k', v) :: r -> if str_eqb k k' then Some v else assoc_str k r

let () =
  (* main_run: fo, files, output option, stdin, read table [(path, content option)], fmt table [(text, result)] *)
  port "main_run" (fun r ->
    let o = rd_fo r in let files = rd_strs r in let output = rd_opt rd_str r in let stdin_ = rd_str r in
    let rt = rd_list (fun r -> let p = rd_str r in let c = rd_opt rd_str r in (p, c)) r in
    let ft = rd_list (fun r -> let t = rd_str r in let res = rd_str r in (t, res)) r in
    let fmt _ t = (match assoc_str t ft with Some x -> x | None -> [n_of_int 63]) in
    let read p = (match assoc_str p rt with Some c -> c | None -> None) in
    let (acts, oc) = main_run fmt read stdin_ files output o in
    wr_list (function
      | AWriteStdout b -> wr_int 0; wr_str b
      | AAtomicWrite (p, b, bk) -> wr_int 1; wr_str p; wr_str b; wr_bool bk) acts;
    wr_int (match oc with Done -> 0 | ErrValue -> 1 | ErrOther -> 2));
  (* merge: fields, cli [(name, value option)], cfg [(name, value option)], auto, explicit, locked; values are strings *)
  port "merge" (fun r ->
    let fields = rd_list rd_name r in
    let tbl r = rd_list (fun r -> let n = rd_name r in let v = rd_opt rd_str r in (n, v)) r in
    let cli = tbl r in let cfg = tbl r in let auto = rd_bool r in
    let explicit = rd_list rd_name r in let locked = rd_list rd_name r in
    let look t n = (match List.find_opt (fun (k, _) -> ostring_of k = ostring_of n) t with Some (_, v) -> v | None -> None) in
    let res = merge_fields fields (look cli) (look cfg) auto explicit locked in
    wr_list (fun (n, _) -> wr_name n; wr_opt wr_str (res n)) cli);
  port "find_config" (fun r ->
    let dirs = rd_list (rd_list (fun r -> let n = rd_name r in
      let st = (match rd_int r with 0 -> CAbsent | 1 -> CPlain | 2 -> CPyprojectWithSection | _ -> CPyprojectWithoutSection) in (n, st))) r in
    wr_opt (fun (d, n) -> wr_int (int_of_nat d); wr_name n) (find_config dirs O));
  port "smart_quotes" (fun r -> wr_m wr_str (smart_quotes (rd_str r)));
  port "ellipses" (fun r -> wr_m wr_str (ellipses (rd_str r)));
  ()

(* ---- AST decoding ---- *)
let rec rd_inl r : inl =
  match rd_int r with
  | 0 -> IRaw (rd_str r)
  | 1 -> ICode (rd_str r)
  | 2 -> IBreak (rd_bool r)
  | 3 -> ILit (rd_str r)
  | 4 -> IHtml (rd_str r)
  | 5 -> IFootRef (rd_str r)
  | 6 -> let k = rd_ikind r in let c = rd_list rd_inl r in INode (k, c)
  | _ -> raise (Bad "inl tag")
and rd_ikind r : ikind =
  match rd_int r with
  | 0 -> KEmph | 1 -> KStrong | 2 -> KStrike
  | 3 -> let d = rd_str r in let t = rd_opt rd_str r in KLink (d, t)
  | 4 -> let d = rd_str r in let t = rd_opt rd_str r in KImage (d, t)
  | 5 -> KAuto (rd_str r)
  | 6 -> KUrl (rd_str r)
  | _ -> raise (Bad "ikind tag")

let rd_leaf r : leaf =
  match rd_int r with
  | 0 -> let ch = rd_opt rd_bool r in let c = rd_list rd_inl r in LPara (ch, c)
  | 1 -> let se = rd_bool r in let lv = nat_of_int (rd_int r) in let c = rd_list rd_inl r in LHeading (se, lv, c)
  | 2 -> let lang = rd_str r in let extra = rd_str r in let fc = rd_n r in let fl = nat_of_int (rd_int r) in
         let content = rd_str r in LCode (lang, extra, fc, fl, content)
  | 3 -> LThematic
  | 4 -> LBlank
  | 5 -> let l = rd_str r in let d = rd_str r in let t = rd_opt rd_str r in LLinkRef (l, d, t)
  | 6 -> let ds = rd_strs r in let rows = rd_list (rd_list (rd_list rd_inl)) r in LTable (ds, rows)
  | 7 -> LHtml (rd_str r)
  | _ -> raise (Bad "leaf tag")

let rec rd_blk r : blk =
  match rd_int r with
  | 0 -> BLeaf (rd_leaf r)
  | 1 -> let k = rd_bkind r in let c = rd_list rd_blk r in BNode (k, c)
  | _ -> raise (Bad "blk tag")
and rd_bkind r : bkind =
  match rd_int r with
  | 0 -> let o = rd_bool r in let b = rd_str r in let s = rd_z r in let t = rd_bool r in KList (o, b, s, t)
  | 1 -> KItem | 2 -> KQuote
  | 3 -> KAlert (rd_str r)
  | 4 -> KFootDef (rd_str r)
  | _ -> raise (Bad "bkind tag")

let rd_doc r : doc =
  let bs = rd_list rd_blk r in
  let defs = rd_list (fun r -> let l = rd_str r in let d = rd_str r in let t = rd_opt rd_str r in (l, (d, t))) r in
  { d_blocks = bs; d_refdefs = defs }

let rd_mdopts r : mdopts =
  let w = rd_z r in let se = rd_bool r in let cl = rd_bool r in let sq = rd_bool r in let el = rd_bool r in
  let sp = (match rd_int r with 0 -> LPreserve | 1 -> LLoose | _ -> LTight) in
  { o_width = w; o_semantic = se; o_cleanups = cl; o_smartquotes = sq; o_ellipses = el; o_spacing = sp }

let () =
  port "dedent" (fun r -> wr_str (dedent (rd_str r)));
  port "prepare_body" (fun r -> wr_str (prepare_body (rd_str r)));
  (* render_parsed: options, document -> text *)
  port "render_parsed" (fun r -> let o = rd_mdopts r in let d = rd_doc r in wr_m wr_str (render_parsed o d));
  port "parser_input" (fun r -> wr_opt wr_str (parser_input (rd_str r)));
  (* fill_markdown with the parser's answer for parser_input(text) supplied by the harness *)
  port "fill_markdown" (fun r -> let o = rd_mdopts r in let text = rd_str r in let d = rd_opt rd_doc r in
    let parse _ = (match d with Some x -> x | None -> { d_blocks = []; d_refdefs = [] }) in
    wr_m wr_str (fill_markdown parse o text))

(* ---- resolver: tree and oracle tables ---- *)
let rec rd_node r : node =
  match rd_int r with
  | 0 -> NFile (rd_n r)
  | 1 -> NDir (rd_list (fun r -> let n = rd_str r in let nd = rd_node r in (n, nd)) r)
  | 2 -> NLink
  | _ -> raise (Bad "node tag")

(* a table of (string, answer) pairs: the matcher's answers for every string the model can ask about *)
let rd_table r : (str -> bool) =
  let t = rd_list (fun r -> let s = rd_str r in let b = rd_bool r in (s, b)) r in
  (fun s -> try List.assoc s t with Not_found -> raise (Bad "oracle table has no answer"))

let rd_table_opt r : (str -> bool option) =
  let t = rd_list (fun r -> let s = rd_str r in let v = (match rd_int r with 0 -> None | 1 -> Some false | _ -> Some true) in (s, v)) r in
  (fun s -> try List.assoc s t with Not_found -> raise (Bad "oracle table has no answer"))

let () =
  (* resolver_walk: respect maxsize inc exc tool? gi-table(list of (rel, spec?)) tree -> list of relative paths *)
  port "resolver_walk" (fun r ->
    let respect = rd_bool r in let maxsize = rd_n r in
    let inc = rd_table r in let exc = rd_table r in
    let tool = rd_opt rd_table r in
    let gis = rd_list (fun r -> let rel = rd_strs r in let sp = rd_opt rd_table_opt r in (rel, sp)) r in
    let gi rel = (try List.assoc rel gis with Not_found -> None) in
    let tree = rd_node r in
    wr_list wr_strs (walk inc exc tool gi respect maxsize [] [] tree));
  port "resolver_explicit" (fun r ->
    let force = rd_bool r in let maxsize = rd_n r in let exc = rd_table r in
    let parts = rd_strs r in let sz = rd_n r in
    wr_bool (include_explicit exc maxsize force parts sz));
  port "resolver_resolve" (fun r ->
    (* strings compared by code points, lists lexicographically: the order of PosixPath on components *)
    let per_arg = rd_list (rd_list rd_strs) r in
    let rec cmp_str a b = (match a, b with
      | [], [] -> 0 | [], _ -> -1 | _, [] -> 1
      | x :: a', y :: b' -> let c = compare (int_of_n x) (int_of_n y) in if c <> 0 then c else cmp_str a' b') in
    let rec cmp_path a b = (match a, b with
      | [], [] -> 0 | [], _ -> -1 | _, [] -> 1
      | x :: a', y :: b' -> let c = cmp_str x y in if c <> 0 then c else cmp_path a' b') in
    wr_list wr_strs (resolve (fun a b -> cmp_path a b = 0) (fun a b -> cmp_path a b <= 0) per_arg))
