(* Hand-written driver around the extracted model (Model). One request per input line:
     <port> <int tokens ...>
   Strings are "<n> c1 .. cn" (code points), lists "<k> item1 .. itemk", ints decimal,
   bools 0/1.  One answer line per request, same token syntax.  Errors -> "ERR msg". *)
open Model

let rec pos_of_int n =
  if n <= 1 then XH
  else if n land 1 = 0 then XO (pos_of_int (n lsr 1))
  else XI (pos_of_int (n lsr 1))
let n_of_int i = if i <= 0 then N0 else Npos (pos_of_int i)
let z_of_int i = if i = 0 then Z0 else if i > 0 then Zpos (pos_of_int i) else Zneg (pos_of_int (-i))
let rec int_of_pos = function XH -> 1 | XO p -> 2 * int_of_pos p | XI p -> 2 * int_of_pos p + 1
let int_of_n = function N0 -> 0 | Npos p -> int_of_pos p
let int_of_z = function Z0 -> 0 | Zpos p -> int_of_pos p | Zneg p -> - (int_of_pos p)
let rec nat_of_int i = if i <= 0 then O else S (nat_of_int (i - 1))
let rec int_of_nat = function O -> 0 | S n -> 1 + int_of_nat n

(* ---- token stream ---- *)
type rd = { toks : string array; mutable pos : int }
exception Bad of string
let next r =
  if r.pos >= Array.length r.toks then raise (Bad "eof");
  let t = r.toks.(r.pos) in r.pos <- r.pos + 1; t
let rd_int r = try int_of_string (next r) with Failure _ -> raise (Bad "int")
let rd_bool r = rd_int r <> 0
let rd_z r = z_of_int (rd_int r)
let rd_n r = n_of_int (rd_int r)
let rd_list f r = let k = rd_int r in List.init k (fun _ -> f r)
let rd_str r = rd_list rd_n r
let rd_strs r = rd_list rd_str r
let rd_opt f r = if rd_bool r then Some (f r) else None

let b = Buffer.create 65536
let wr_int i = Buffer.add_string b (string_of_int i); Buffer.add_char b ' '
let wr_bool x = wr_int (if x then 1 else 0)
let wr_n x = wr_int (int_of_n x)
let wr_z x = wr_int (int_of_z x)
let wr_list f l = wr_int (List.length l); List.iter f l
let wr_str s = wr_list wr_n s
let wr_strs l = wr_list wr_str l
let wr_opt f = function None -> wr_int 0 | Some x -> wr_int 1; f x
let wr_pair f g (x, y) = f x; g y

let ports : (string * (rd -> unit)) list ref = ref []
let port name f = ports := (name, f) :: !ports

let () =
  port "split_ws" (fun r -> wr_strs (split_ws (rd_str r)));
  port "strip" (fun r -> wr_str (strip (rd_str r)));
  port "collapse_ws" (fun r -> wr_str (collapse_ws (rd_str r)));
  port "splitlines" (fun r -> wr_strs (splitlines (rd_str r)));
  port "escape_word" (fun r -> wr_str (escape_word (rd_str r)));
  port "wrap_words" (fun r ->
    let md = rd_bool r in let w = rd_z r in let c0 = rd_z r in let c1 = rd_z r in
    let ws = rd_strs r in
    wr_list wr_strs (wrap_words ws w c0 c1 md));
  port "wrap_ok" (fun r ->
    let md = rd_bool r in let w = rd_z r in let c0 = rd_z r in let c1 = rd_z r in
    let ws = rd_strs r in let ls = rd_list rd_strs r in
    wr_bool (wrap_ok ws w c0 c1 md ls));
  port "rx_finditer" (fun r ->
    let i = nat_of_int (rd_int r) in let s = rd_str r in
    wr_opt (wr_list (fun ((a, e), gs) ->
      wr_int (int_of_nat a); wr_int (int_of_nat e);
      wr_list (wr_opt (fun (st, t) -> wr_int (int_of_nat st); wr_str t)) gs)) (rx_finditer i s));
  (* wrap_paragraph_lines with str.split as the splitter *)
  port "wpl_simple" (fun r ->
    let w = rd_z r in let c0 = rd_z r in let c1 = rd_z r in
    let rw = rd_bool r in let dw = rd_bool r in let md = rd_bool r in
    let t = rd_str r in
    wr_strs (wrap_paragraph_lines split_ws t w c0 c1 rw dw md))
