open Driver
let () =
  (try
    while true do
      let line = input_line stdin in
      Buffer.clear b;
      (match String.split_on_char ' ' (String.trim line) |> List.filter (fun s -> s <> "") with
       | [] -> Buffer.add_string b "ERR empty"
       | name :: toks ->
         (match List.assoc_opt name !ports with
          | None -> Buffer.add_string b ("ERR unknown-port " ^ name)
          | Some f ->
            let r = { toks = Array.of_list toks; pos = 0 } in
            (try f r with
             | Bad m -> Buffer.clear b; Buffer.add_string b ("ERR bad-input " ^ m)
             | Stack_overflow -> Buffer.clear b; Buffer.add_string b "ERR stack-overflow")));
      print_string (String.trim (Buffer.contents b)); print_newline ()
    done
  with End_of_file -> ())
